"""Seeded generators of real cardillo systems (bodies, joints, force laws, actuators, contacts)."""
from __future__ import annotations

import math

import numpy as np


def rand_unit_quat(rng):
    P = np.array([rng.gauss(0, 1) for _ in range(4)])
    return P / np.linalg.norm(P)


def random_real_system(rng, with_contacts=True, with_actuators=True, with_maxwell=True):
    """A random collection of real contributions (NOT dynamically consistent: assemble it with
    SolverOptions(compute_consistent_initial_conditions=False)).  Returns (system, description)."""
    from cardillo import System
    from cardillo.discrete import RigidBody, PointMass
    from cardillo.constraints import Spherical, Revolute, RigidConnection, Prismatic, Cylindrical, Planarizer, FixedDistance
    from cardillo.force_laws import Spring, KelvinVoigtElement, MaxwellElement
    from cardillo.interactions import TwoPointInteraction
    from cardillo.forces import Force, Moment
    from cardillo.contacts import Sphere2Plane, Sphere2Sphere
    from cardillo.actuators import Motor, PDcontroller

    system = System()
    desc = []
    bodies = []
    nb = rng.randint(1, 3)
    for i in range(nb):
        r0 = np.array([3.0 * i + rng.uniform(-0.5, 0.5), rng.uniform(-1, 1), 2.0 + rng.uniform(0, 1)])
        if rng.random() < 0.7:
            q0 = np.concatenate([r0, rand_unit_quat(rng)])
            u0 = np.array([rng.uniform(-1, 1) for _ in range(6)])
            b = RigidBody(1.0 + i, np.diag([1.0, 2.0, 1.5]), q0=q0, u0=u0, name=f"rb{i}")
            desc.append(f"RigidBody rb{i}")
        else:
            u0 = np.array([rng.uniform(-1, 1) for _ in range(3)])
            b = PointMass(1.0 + i, q0=r0, u0=u0, name=f"pm{i}")
            desc.append(f"PointMass pm{i}")
        bodies.append(b)
    contribs = list(bodies)
    rbs = [b for b in bodies if isinstance(b, RigidBody)]
    # joints
    for j in range(rng.randint(0, 2)):
        b = rng.choice(bodies)
        other = rng.choice([system.origin] + [x for x in bodies if x is not b])
        kind = rng.choice(["spherical", "revolute", "rigid", "prismatic", "cylindrical", "planarizer", "fixed_distance"])
        need_rot = kind in ("revolute", "rigid", "prismatic", "cylindrical", "planarizer")
        if need_rot and (not isinstance(b, RigidBody) or (other is not system.origin and not isinstance(other, RigidBody))):
            kind = "spherical" if rng.random() < 0.5 else "fixed_distance"
        if kind == "spherical":
            c = Spherical(other, b, r_OJ0=np.array(b.q0[:3], dtype=float), name=f"sph{j}")
        elif kind == "revolute":
            c = Revolute(other, b, axis=rng.randrange(3), name=f"rev{j}")
        elif kind == "rigid":
            c = RigidConnection(other, b, name=f"rig{j}")
        elif kind == "prismatic":
            c = Prismatic(other, b, axis=rng.randrange(3))
            c.name = f"pri{j}"
        elif kind == "cylindrical":
            c = Cylindrical(other, b, axis=rng.randrange(3))
            c.name = f"cyl{j}"
        elif kind == "planarizer":
            c = Planarizer(other, b, axis=rng.randrange(3))
            c.name = f"pla{j}"
        else:
            c = FixedDistance(other, b)
            c.name = f"fd{j}"
        desc.append(f"{kind} {getattr(other, 'name', '?')}-{b.name}")
        contribs.append(c)
        if kind == "revolute" and with_actuators and rng.random() < 0.6:
            if rng.random() < 0.5:
                a = Motor(c, lambda t: 1.5)
            else:
                a = PDcontroller(c, 2.0, 0.5, lambda t: np.array([0.1 * t, 0.1]))
            a.name = f"act{j}"
            contribs.append(a)
            desc.append(f"actuator on rev{j}")
        if kind == "revolute" and rng.random() < 0.4:
            kv = KelvinVoigtElement(c, 5.0, 0.3, l_ref=0.2, compliance_form=rng.random() < 0.5, name=f"kvrev{j}")
            contribs.append(kv)
            desc.append(f"KelvinVoigt on rev{j}")
    # scalar force laws on two-point interactions
    for j in range(rng.randint(0, 2)):
        b = rng.choice(bodies)
        other = rng.choice([system.origin] + [x for x in bodies if x is not b])
        tpi = TwoPointInteraction(other, b, name=f"tpi{j}")
        which = rng.choice(["spring", "kv", "maxwell"] if with_maxwell else ["spring", "kv"])
        if which == "spring":
            law = Spring(tpi, 10.0, l_ref=1.0, compliance_form=rng.random() < 0.5, name=f"spring{j}")
        elif which == "kv":
            law = KelvinVoigtElement(tpi, 10.0, 0.5, l_ref=1.0, compliance_form=rng.random() < 0.5, name=f"kv{j}")
        else:
            law = MaxwellElement(tpi, 10.0, 0.7, l_ref=1.0, q0=np.array([0.1]), name=f"maxwell{j}")
        contribs.append(tpi)
        contribs.append(law)
        desc.append(f"{which} {getattr(other, 'name', '?')}-{b.name}")
    # forces
    for j in range(rng.randint(0, 2)):
        b = rng.choice(bodies)
        f = Force(np.array([0.0, 0.0, -9.81 * b.mass]), b, name=f"force{j}")
        contribs.append(f)
        desc.append(f"Force on {b.name}")
    if rbs and rng.random() < 0.4:
        mo = Moment(np.array([0.1, 0.2, -0.3]), rng.choice(rbs), name="moment0")
        contribs.append(mo)
        desc.append("Moment")
    # contacts
    if with_contacts:
        for j in range(rng.randint(0, 2)):
            b = rng.choice(bodies)
            mu = rng.choice([0.0, 0.3])
            if rng.random() < 0.6 or len(bodies) < 2:
                c = Sphere2Plane(system.origin, b, mu=mu, r=0.2, e_N=0.5, e_F=0.0, name=f"s2p{j}")
                desc.append(f"Sphere2Plane mu={mu} {b.name}")
            else:
                other = rng.choice([x for x in bodies if x is not b])
                c = Sphere2Sphere(other, b, 0.2, 0.3, mu=mu, e_N=0.5, e_F=0.0, name=f"s2s{j}")
                desc.append(f"Sphere2Sphere mu={mu} {other.name}-{b.name}")
            contribs.append(c)
    rng.shuffle(contribs)
    # keep a force law behind its two-point interaction and bodies first is NOT required by the property; but
    # MaxwellElement documents that its subsystem must have been assembled: keep tpi before law
    ordered = []
    for c in contribs:
        if c in ordered:
            continue
        sub = getattr(c, "subsystem", None)
        if sub is not None and sub in contribs and sub not in ordered and not isinstance(sub, (RigidBody, PointMass)):
            ordered.append(sub)
        ordered.append(c)
    system.add(*ordered)
    return system, desc


# ---------------------------------------------------------------------------------------------------
# small, dynamically consistent systems for solver runs
def _opts(**kw):
    from cardillo.solver import SolverOptions

    return SolverOptions(**kw)


def sys_pendulum(t0=0.0, omega0=0.0, motor=False, spring=None, phi0=0.0):
    """Rigid bar on a revolute joint (axis z) at the origin, gravity in -y.  parts: g, S (+tau, +c)"""
    from cardillo import System
    from cardillo.discrete import RigidBody
    from cardillo.constraints import Revolute
    from cardillo.forces import Force
    from cardillo.actuators import Motor
    from cardillo.force_laws import KelvinVoigtElement

    system = System(t0=t0)
    L = 1.0
    c, s = math.cos(phi0), math.sin(phi0)
    r_OC = 0.5 * L * np.array([c, s, 0.0])
    P = np.array([math.cos(phi0 / 2), 0.0, 0.0, math.sin(phi0 / 2)])
    v = omega0 * 0.5 * L * np.array([-s, c, 0.0])
    rb = RigidBody(1.0, np.diag([0.01, 1.0 / 12, 1.0 / 12]), q0=np.concatenate([r_OC, P]), u0=np.concatenate([v, [0, 0, omega0]]), name="bar")
    joint = Revolute(system.origin, rb, axis=2, r_OJ0=np.zeros(3), A_IJ0=np.eye(3), name="hinge")
    grav = Force(np.array([0.0, -9.81, 0.0]), rb, name="gravity")
    system.add(rb, joint, grav)
    if motor:
        m = Motor(joint, lambda t: 0.5)
        m.name = "motor"
        system.add(m)
    if spring is not None:
        kv = KelvinVoigtElement(joint, 2.0, 0.1, l_ref=0.0, compliance_form=(spring == "compliance"), name="kv")
        system.add(kv)
    system.assemble()
    return system


def sys_free_mass(t0=0.0):
    """Point mass in free fall (linear: converges for every step size).  no constraint parts"""
    from cardillo import System
    from cardillo.discrete import PointMass
    from cardillo.forces import Force

    system = System(t0=t0)
    pm = PointMass(1.0, q0=np.array([0.0, 0.0, 1.0]), u0=np.array([0.3, 0.0, 0.0]), name="pm")
    system.add(pm, Force(np.array([0.0, 0.0, -9.81]), pm, name="gravity"))
    system.assemble()
    return system


def sys_mass_spring(t0=0.0, compliance=True, v0=0.0, k=50.0):
    """Point mass on a spring to the origin, gravity in -z.  parts: c (compliance form) or none"""
    from cardillo import System
    from cardillo.discrete import PointMass
    from cardillo.interactions import TwoPointInteraction
    from cardillo.force_laws import Spring
    from cardillo.forces import Force

    system = System(t0=t0)
    pm = PointMass(1.0, q0=np.array([0.0, 0.0, -1.0]), u0=np.array([v0, 0.0, 0.0]), name="pm")
    tpi = TwoPointInteraction(system.origin, pm, name="tpi")
    sp = Spring(tpi, k, l_ref=0.8, compliance_form=compliance, name="spring")
    grav = Force(np.array([0.0, 0.0, -9.81]), pm, name="gravity")
    system.add(pm, tpi, sp, grav)
    system.assemble()
    return system


def sys_ball_on_plane(t0=0.0, mu=0.3, gap=0.0, vx=1.0, vz=0.0, e_N=0.0, rigid=True, r=0.1):
    """Ball resting on / falling onto the plane z = 0 (origin frame), gravity in -z.  parts: N, F (mu>0), S (rigid)"""
    from cardillo import System
    from cardillo.discrete import RigidBody, PointMass
    from cardillo.contacts import Sphere2Plane
    from cardillo.forces import Force

    system = System(t0=t0)
    if rigid:
        q0 = np.array([0.0, 0.0, r + gap, 1.0, 0.0, 0.0, 0.0])
        u0 = np.array([vx, 0.0, vz, 0.0, 0.0, 0.0])
        body = RigidBody(1.0, 0.4 * r * r * np.eye(3), q0=q0, u0=u0, name="ball")
    else:
        body = PointMass(1.0, q0=np.array([0.0, 0.0, r + gap]), u0=np.array([vx, 0.0, vz]), name="ball")
    contact = Sphere2Plane(system.origin, body, mu=mu, r=r, e_N=e_N, e_F=0.0, name="contact")
    grav = Force(np.array([0.0, 0.0, -9.81]), body, name="gravity")
    system.add(body, contact, grav)
    system.assemble()
    return system


def sys_static_spring(force_form=True):
    """Static problem for the Newton solver: bar on a revolute joint with a torsional spring, dead load at the
    centre ramped with t in [0, 1].  parts: g, S (+c in compliance form)"""
    from cardillo import System
    from cardillo.discrete import RigidBody
    from cardillo.constraints import Revolute
    from cardillo.force_laws import Spring
    from cardillo.forces import Force

    system = System()
    rb = RigidBody(1.0, np.diag([0.01, 1.0 / 12, 1.0 / 12]), q0=np.array([0.5, 0, 0, 1.0, 0, 0, 0]), name="bar")
    joint = Revolute(system.origin, rb, axis=2, r_OJ0=np.zeros(3), A_IJ0=np.eye(3), name="hinge")
    sp = Spring(joint, 20.0, l_ref=0.0, compliance_form=not force_form, name="torsion")
    load = Force(lambda t: t * np.array([0.0, -9.81, 0.0]), rb, name="load")
    system.add(rb, joint, sp, load)
    system.assemble()
    return system


def sys_blowup(t0=0.0, tc=0.105):
    """Point mass with a force that stops being finite at t = tc: adaptive integrators give up there"""
    from cardillo import System
    from cardillo.discrete import PointMass
    from cardillo.forces import Force

    system = System(t0=t0)
    pm = PointMass(1.0, q0=np.zeros(3), u0=np.zeros(3), name="pm")

    def f(t):
        x = 1.0 - (t - t0) / (tc - t0)
        return np.array([np.sqrt(x) if x >= 0 else np.nan, 0.0, 0.0])

    system.add(pm, Force(f, pm, name="singular"))
    system.assemble()
    return system


def sys_free_spring_pair(net=True):
    """Static problem without any support: two point masses joined by one spring, loaded by forces with a net resultant (no equilibrium exists for
    t > 0; the tangent has rigid-body modes, so only the pseudo-inverse linear solvers make steps at all).  parts: none"""
    from cardillo import System
    from cardillo.discrete import PointMass
    from cardillo.forces import Force
    from cardillo.force_laws import Spring
    from cardillo.interactions import TwoPointInteraction

    R1 = np.array([0.3, -0.2, 0.7])
    R2 = R1 + 0.9 * np.array([2.0, -1.0, np.sqrt(2.0)]) / np.sqrt(7.0)
    F1 = np.array([0.8, np.sqrt(0.5), -0.3])
    F2 = np.array([-0.1, 0.4, np.pi / 5]) if net else -F1
    system = System()
    pm1 = PointMass(1.0, q0=R1, name="pm1")
    pm2 = PointMass(1.0, q0=R2, name="pm2")
    spring = Spring(TwoPointInteraction(pm1, pm2), 37.0, compliance_form=False, name="spring")
    system.add(pm1, pm2, spring, Force(lambda t: t * F1, pm1, name="f1"), Force(lambda t: t * F2, pm2, name="f2"))
    system.assemble()
    return system


def sys_spinning_body(omega=(30.0, 30.0, 30.0), t0=0.0, theta=(0.7, 1.3, 2.1)):
    """A free rigid body with unequal inertia and a fast generic spin: the implicit mid-point equation of the quaternion kinematics is not a
    contraction for dt |omega| / 4 > 1.  parts: S"""
    from cardillo import System
    from cardillo.discrete import RigidBody

    system = System(t0=t0)
    P = np.array([0.9, 0.1, -0.3, 0.2]); P = P / np.linalg.norm(P)
    rb = RigidBody(1.0, np.diag(np.asarray(theta, dtype=float)), q0=np.concatenate([[0.0, 0.0, 0.0], P]), u0=np.concatenate([[0.1, 0.0, 0.0], np.asarray(omega, dtype=float)]), name="top")
    system.add(rb)
    system.assemble()
    return system
