#!/usr/bin/env python3
"""Insert rows into seeded/RESULTS.md for seeds that are not listed yet (from their meta.json, filled in by tools/run_seeds.py)."""
import json, os, re
root = '/verif/seeded'
p = f'{root}/RESULTS.md'
L = open(p).read().splitlines()
have = {m.group(1) for l in L for m in [re.match(r'\| (C\d\d-[A-Z]) ', l)] if m}
new = []
for d in sorted(os.listdir(root)):
    if re.match(r'C\d\d-[A-Z]$', d) and d not in have:
        m = json.load(open(f'{root}/{d}/meta.json'))
        det = m.get("detected_by", "")
        status = "caught" if "caught" in det else ("MISSED" if "MISSED" in det else "?")
        det = det.split("caught (", 1)[1].rsplit(")", 1)[0] if "caught (" in det else det
        new.append((d, f"| {d} | {status} | {det} |"))
rows = [l for l in L if re.match(r'\| C\d\d-[A-Z] ', l)]
others_head = L[:L.index(rows[0])]
others_tail = L[L.index(rows[-1]) + 1:]
allrows = sorted(rows + [r for _, r in new], key=lambda l: l.split('|')[1].strip())
open(p, 'w').write("\n".join(others_head + allrows + others_tail) + "\n")
print("added", [d for d, _ in new])
