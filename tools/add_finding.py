#!/usr/bin/env python3
"""add_finding.py <property> <status known|fixed> <commit-or-> <key> <what> [line]  -- append an entry to known_findings.json (development time only)."""
import json, sys
prop, status, commit, key, what = sys.argv[1:6]
line = sys.argv[6] if len(sys.argv) > 6 else None
p = '/verif/known_findings.json'
d = json.load(open(p))
e = {"property": prop, "status": status}
if status == "fixed":
    e["commit"] = commit
e["key"] = key
e["what"] = what
if status == "fixed":
    e["line"] = line or f"fixed: property={prop} {commit} {what}"
d["findings"].append(e)
json.dump(d, open(p, 'w'), indent=1)
print("ok", len(d["findings"]))
