#!/bin/bash
# run every claimed check (quick tier) with several VERIF_SEED values on the unchanged tree; evidence goes to out/runs/<tag> (not to evidence/)
# usage: tools/run_all_seeds.sh "2 3 4" [tier]
seeds=${1:-"2 3 4 5"}; tier=${2:-quick}
cd /verif
ids=$(/venv/bin/python -c "import json; print(' '.join(c['property_id'] for c in json.load(open('MANIFEST.json'))['checks']))")
for sd in $seeds; do
  for id in $ids; do
    s=$(date +%s); VERIF_SEED=$sd VERIF_RUN_TAG=seedcheck_$sd ./check $id --tier $tier > /tmp/allseeds_${id}_$sd.log 2>&1; rc=$?; e=$(date +%s)
    echo "seed=$sd $id rc=$rc $((e-s))s $(grep -c '^VIOLATION' /tmp/allseeds_${id}_$sd.log) violations $(grep -c '^KNOWN-FINDING' /tmp/allseeds_${id}_$sd.log) known"
  done
  rm -rf /verif/out/runs/seedcheck_$sd
done
