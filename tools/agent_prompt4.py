#!/usr/bin/env python3
"""Prompt for a round-4 seeding sub-agent (letters G, H; steered towards options, sizes, times, units, orders) for property <ID> (only the property text + its own worktree)."""
import json, sys
pid = sys.argv[1]
p = next(json.loads(l) for l in open('/verif/properties.jsonl') if json.loads(l)['id'] == pid)
wt = f"/tmp/wt2_{pid}"
sd = f"/tmp/seed2_{pid}"
print(f"""You are helping to evaluate a verification effort by acting as a careful "bug seeder" for the open-source Python library cardillo (cardilloproject/cardillo: simulation of flexible multibody systems: rigid bodies, joints, contacts, Cosserat rods, nonsmooth time integrators).

Your private scratch checkout is the git worktree {wt} (already created). Work ONLY inside {wt} and {sd}/ (create it). Never read or modify /repo or /verif, and do not look at anything under /verif or /tmp/seed_* or /tmp/wt_*.

How to run code: use /venv/bin/python. The package is installed in editable mode from another directory, so ALWAYS run with your worktree first on the path, e.g.
  cd {wt} && PYTHONPATH={wt} /venv/bin/python -c "import cardillo; print(cardillo.__file__)"   # must print a path under {wt}
The repository's test suite is run with
  cd {wt} && PYTHONPATH={wt} /venv/bin/python -m pytest -q -p no:cacheprovider --timeout=900 -x -n 4
(85 tests, about one to three minutes; there is no network.)

The property under study (it is supposed to hold for the code in your worktree as it is, for every input/history/configuration in its quantifier):

  id: {p['id']}
  title: {p['title']}
  statement: {p['statement']}
  quantifier: {p['quantifier']['text']}
  why the existing tests cannot settle it: {p['why_tests_cant']}
  anchored in files: {', '.join(p['anchors']['files'])}

Task: produce TWO different, realistic changes (call them G and H) to the library source (not to tests) each of which BREAKS this property while the code still imports and the ENTIRE existing test suite still passes. Think of the kind of regression a maintainer could plausibly introduce in a refactoring, an "optimisation" or a feature addition. The changes MUST need something SPECIFIC to manifest - a particular multi-step sequence of operations, an unusual but legal input or parameter combination, a fault or failure at a particular point, a boundary value, a particular interleaving of calls on a stateful object, or two cooperating edit sites that each look fine alone - NOT something that any ordinary use would expose at once. Prefer code paths, parameter regions and object histories that a quick check would be unlikely to visit (second and later calls, rarely used keyword arguments, non-default options, larger sizes, negative/zero/equal values, particular orderings). Keep each change small (a few lines). Assume that whoever checks this property is thorough about the obvious dimensions: they use generic oblique orientations and non-unit quaternions, irrational and unequal parameter values, non-zero offsets, bodies with full inertia tensors, frames with prescribed motion as partners, repeated calls on one object with buffers that are overwritten in place, re-assembly and reset histories. Prefer changes that are invisible to all of that and show only through something ELSE: a rarely used constructor option or keyword argument (or a particular COMBINATION of two options), a boundary size (a single element, one node, polynomial degree 1 or >= 3, zero contacts, an empty list), explicit time dependence evaluated at t != 0 or at negative or very large times, non-default solver options, argument types (integer or complex dtype, lists or tuples instead of arrays, 0-d arrays), very large or very small magnitudes (units), a particular order in which contributions are added or named, or two instances of a class interacting through shared state.

For each change X in {{G, H}} deliver in {sd}/X/ :
  - patch.diff      : `git diff` of the change against the worktree's HEAD (apply-able with `git apply` at the repo root)
  - demo.py         : a small standalone program (run as `PYTHONPATH=<repo root> /venv/bin/python demo.py`) that exits 0 on the unmodified code and exits non-zero (assertion failure) with the change applied, demonstrating the property violation through the public API
  - notes.md        : 5-10 lines: what the change does, why it violates the property, what specific circumstances are needed for it to manifest, and the result of the full test-suite run with the change applied (must be all passing).

Procedure: read the anchored files, design a change, apply it in {wt}, write demo.py, verify demo fails with the change and passes without (save your change with `git diff > {sd}/X.diff`, revert with `git checkout -- .`, re-apply with `git apply`; NEVER use `git stash`: the stash is shared between all worktrees of this repository and other people are working in sibling worktrees), run the full test suite with the change applied and confirm it passes, save patch.diff, then `git checkout -- .` before starting the next change. Leave the worktree clean (no modifications) when you finish. If the unmodified code ALREADY violates the property in some respect, do not use that respect for your demo (the demo must pass on the unmodified code); mention it in notes.md.

Final answer: a short summary of G and H (files/lines touched, how they manifest, test-suite result).""")
