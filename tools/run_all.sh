#!/bin/bash
# run every claimed check (quick tier by default) and print one line per check
tier=${1:-quick}
cd /verif
for id in $(/venv/bin/python -c "import json; print(' '.join(c['property_id'] for c in json.load(open('MANIFEST.json'))['checks']))"); do
  s=$(date +%s); ./check $id --tier $tier > /tmp/all_$id.log 2>&1; rc=$?; e=$(date +%s)
  echo "$id rc=$rc $((e-s))s $(grep -c '^VIOLATION' /tmp/all_$id.log) violations $(grep -c '^KNOWN-FINDING' /tmp/all_$id.log) known"
done
