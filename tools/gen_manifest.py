#!/usr/bin/env python3
"""Generate /verif/MANIFEST.json from the table below (single source of truth for the interface)."""
import json
import os
import subprocess

ROOT = os.path.dirname(os.path.dirname(os.path.abspath(__file__)))

GUARD = "CARDILLOPROJECT_CARDILLO_VERIF"

# property id -> dict(level, text, note, technique, design_ref)
CLAIMED = {
    "C25": dict(
        level="model_checking",
        text="RevoluteAngle.tla (quadrant tracker on an N-sector circle, actions Query(d)/Reset/ResetHome) is "
             "model-checked exhaustively by TLC for N in {8,12,16}; every transition of the bounded state graph and "
             "long drifting simulated behaviours are replayed into real Revolute joints and the projection "
             "(angle, n_full_rotations, previous_quadrant, l_dot) is compared after every action.",
        note="Bounded: |k| <= MaxTurns*N sectors exhaustively, several hundred sectors in simulation. Quadrant-boundary "
             "positions are realised exactly with integer quaternions and octahedral joint frames; generic frames are "
             "compared on the angle only. l_dot is compared with the harness' own quaternion kinematics.",
        technique="TLA+ spec + TLC exhaustive state graph, edge-cover replay into the implementation",
        ref="5/C25",
    ),
    "C15": dict(
        level="model_checking",
        text="Coo.tla models CooMatrix as an accumulate-into-dense state machine (index arrays/slices/ints with Python slice "
             "semantics; dense, 1-D, scipy sparse, nested-container, None and wrong-shape writes). TLC proves on the catalogue that the "
             "triplet list built like __setitem__ builds it means the dense sum; every catalogue write and long simulated write "
             "sequences are replayed into real CooMatrix objects and all conversions compared with the spec accumulator after every write.",
        note="Exhaustive for single writes from the empty container on shapes up to 2x3/3x2 (writes are independent appends); "
             "sequences of up to 40 overlapping writes on shapes up to 5x5 by TLC simulation. Integer-valued blocks so float sums are exact. "
             "Negative entries in index arrays are outside the model (the container stores unsigned indices).",
        technique="TLA+ spec + TLC exhaustive catalogue / simulation, replay into the implementation",
        ref="5/C15",
    ),
    "C14": dict(
        level="model_checking",
        text="CardilloSystem.tla (registry add/remove/pop with token-sequence names and the name map; assemble with the DOF layout "
             "of ten index spaces over seven contribution kinds incl. couplings) is model-checked exhaustively (NamesUnique, RegistryExact, "
             "LayoutPartitions, AssembleIdempotent, LayoutIsFunctionOfList); Scatter.tla states what each of the 64 System evaluation methods "
             "means. Every transition of bounded state graphs and simulated histories are replayed into the real System with stub "
             "contributions generated from the spec; after each op the registry clauses are evaluated on the real object, after each "
             "assemble every DOF array and every evaluation method is compared with the dense reference built from the spec layout; "
             "random systems of real classes are checked against the sum of their local quantities and assembled twice.",
        note="Bounds: exhaustive design check NC=4..5 contributions, 5..6 operations; replayed graphs NC=3 (3..4 ops) and NC=7 all kinds "
             "(3..4 ops); simulation 14..24 ops. Stub local methods are integer valued (exact sums) and depend on their arguments. "
             "Generated names are compared with the spec only informatively. Systems whose members reference non-members are not modelled.",
        technique="TLA+ spec + TLC exhaustive state graph / simulation, edge-cover replay with spec-generated stubs, spec-exported scatter table",
        ref="5/C14",
    ),
    "C26": dict(
        level="model_checking",
        text="Memo.tla models the memoised evaluations as LRU tables with key projection, read arguments, hidden dependencies, nested "
             "memoised calls and mutators for five families (RigidBody, Sphere2Sphere body-body and frame-body, Mesh1D, CosseratRod). TLC "
             "checks NoStaleHit/AllEntriesCurrent/SizesRespected/KeyCoversReads exhaustively over all interleavings up to the bound and "
             "rejects the as-found design without invalidation. Every transition and simulated behaviours are replayed into twin real "
             "objects (caches as shipped vs zero-size caches); every result is compared bit for bit.",
        note="Argument pools of 2-3 values per argument (including pairs that differ only in the component a careless key would drop), "
             "up to 3-6 operations exhaustively and 40-60 in simulation. Cache contents are compared with the spec tables only informatively "
             "(a different cache size is still transparent). Rod tables are exercised through r_OP/r_OP_q on one element.",
        technique="TLA+ spec + TLC exhaustive interleavings, edge-cover replay into memoising/non-memoising twin objects",
        ref="5/C26",
    ),
    "C22": dict(
        level="model_checking",
        text="NewtonHelper.tla models fsolve's Newton loop and the plain fixed-point helper as state machines over dyadic-exact problem "
             "families (dimension, residual contraction factor incl. stagnation and divergence, tolerances, iteration budgets, Jacobian modes "
             "callable/chord/LU/numerical) and states the contracts; TLC checks them for every problem and rejects the as-found helper. Every "
             "behaviour is replayed into the real helpers and (success, nit, nfev, warned, x, fun) / (x, niter, raised) compared exactly; the "
             "momentum helper and approx_fprime are driven over the spec's problem spaces and judged by the contract / exact derivative; "
             "random smooth, ill-scaled and domain-leaving systems are judged on the contract clauses only.",
        note="Exactness relies on dyadic data (every iterate representable). The random-system part (round-off floors, NaN residuals) is "
             "sampling, not model checking. Maps are passed in pure, in-place and partially in-place style.",
        technique="TLA+ spec + TLC exhaustive problem-space enumeration, exact replay into the implementation",
        ref="5/C22",
    ),
    "C21": dict(
        level="fault_enumeration",
        text="SolverRun.tla states the failure policy as a transition system over recorded events (Begin/Site/Warn/Accept/End) for all seven "
             "solvers with their site sets and capability sets; TLC explores every fault plan up to the budget and checks NeverSilent, "
             "OnlyConvergedRowsWithoutCWU, NoSilentIgnore, RowsMatch. On the real solvers every occurrence of every site seen in a fault-free "
             "run (pairs under continue_with_unconverged) is forced to fail through the guarded hooks, plus provoked failures (non-finite "
             "right-hand sides) and capability cases; every recorded run is validated by TLC against TraceSolverRun.tla, which names the "
             "violated clause.",
        note="3-step runs (4 load steps) of 1-2 body systems on 7 scenarios; the injected Newton failure runs fsolve's real non-convergence "
             "path (budget of one iteration, unreachable tolerances). A warning counts for the step in whose window it is emitted; 'names the "
             "time' means a number in its text equals the time of the last stored step. DualStormerVerlet has no gated site; Riks and the "
             "consistent-initial-conditions loop assert (raise) and are not enumerated.",
        technique="TLA+ policy spec model-checked over all fault plans + exhaustive fault injection with TLC trace validation",
        ref="5/C21",
    ),
    "C19": dict(
        level="exploration",
        text="RattleScheme.tla writes one RATTLE step as a set of symbolic equations (symmetric midpoint kinematics, the two momentum stages, position "
             "and velocity constraints, what holds on entry). TLC checks that the set is its own adjoint (end points swapped, h -> -h: a symmetric "
             "method, hence of even order >= 2) and invariant under the reflection u -> -u, h -> -h (reversible), and rejects four plausible "
             "deviations (forces at the end point in stage 2, explicit kinematics, mass matrix of the start point in stage 2, no velocity stage). "
             "Real RATTLE runs on random conservative systems (rigid-bar and point-mass pendula and chains on revolute / spherical / fixed-distance "
             "joints, springs in force form, gravity, consistent random initial velocities): per step the residuals of exactly these equations are "
             "evaluated from the stored states and the hook data (midpoint velocity, stage percussions) with the System's routines; per system one "
             "run forward, velocities reversed, forward again on a copy must return to the initial state; the energy-error ratio under step "
             "halving and the trend of the energy error over a long horizon are measured. TLC's trace mode judges every record.",
        note="Exploration: thresholds are float comparisons in the harness (stage residuals ok below 1e-8 / violated above 1e-6 with solver tolerance "
             "1e-11; return error ok below 1e-8 / violated above 5e-8 (the unchanged solver returns to within 4e-10); energy ratio ok in [3, 5.5] / violated below 2.4 or above 12; energy trend ok "
             "below half / violated above three times the oscillation amplitude; not judged in between). Order and absence of drift are asymptotic "
             "statements: the model contributes the symmetry of the equation set (which implies even order) and the binding shows that the code "
             "solves that set; the measurements are supplements with wide bands.",
        technique="TLA+ symbolic model of the RATTLE step (symmetry / reversibility of the equation set) model-checked by TLC + TLC trace validation of stage residuals and run-level observations from real runs",
        ref="5/C19",
    ),
    "C20": dict(
        level="model_checking",
        text="TimeGrid.tla states the Solution contract in exact tick arithmetic (step count = index of the first grid point at or after t1, "
             "checked by TLC to agree with the ceiling formula on the whole lattice; rows of complete and truncated runs; field-name to "
             "dimension table); SolverRun.tla ties returned rows to accepted steps. Lattice states become runs of all seven solvers with the "
             "decimal literals a user would type (ticks 0.1, 0.01, 0.001, 0.25, 1/64) on systems with different dimension signatures; rows, "
             "t[0], t[k], every field's shape, the iterator records and a save/load round trip are compared with the spec. Truncated runs "
             "come from the fault hooks and from integrators that stop early; the planned grids of Moreau/ScipyIVP/ScipyDAE are checked on "
             "the whole lattice x all ticks.",
        note="Quick tier samples 40 lattice states per solver (seeded) and checks ~5.8k planned grids exhaustively; thorough runs up to 400 "
             "states per solver with spans to 40 ticks. Inputs are restricted to the decimal/dyadic lattice so the exact step count is "
             "unambiguous; t[k] compared at 1e-12. Runs that end in an announced non-convergence are not judged here (C21).",
        technique="TLA+ exact-arithmetic spec + TLC lattice enumeration, replay into all solvers",
        ref="5/C20",
    ),
    "C08": dict(
        level="model_checking",
        text="ForceJacobians.tla states the scalar interactions (two-point distance with rate and force direction; revolute angle with rate and "
             "force direction) and the elements on them (spring, Kelvin-Voigt in force and compliance form, Maxwell with its damper coordinate, "
             "motor, PD and PID controller with its integral state, dead and follower forces and moments) once, in dual numbers a + eps b over "
             "exact rationals (square root with a given, checked root; the angle of a planar vector through its derivative only): the eps part of "
             "a quantity evaluated with the state moved by eps along a direction is its derivative along that direction, nothing is approximated. "
             "TLC checks the dual results against closed forms on a lattice and rejects the as-found Maxwell column. Real TwoPointInteraction / "
             "Revolute objects between rigid bodies, point masses and frames with every law and actuator class are assembled into Systems and "
             "evaluated at rational states; for every coordinate direction of q (incl. internal coordinates) and u one record carries the direction "
             "data of the subsystems and the matching columns of l_q, l_dot_q, l_dot_u, W_l_q, h_q, h_u, c_q, c_u, c_la_c, Wla_c_q, Wla_tau_q, "
             "Wla_tau_u, q_dot_q; TLC recomputes every record and names the first routine that differs; the matrices System assembles are "
             "compared with the scatter of the local ones.",
        note="Claimed on rational configurations only: integer positions/velocities, integer quaternions (octahedral and non-octahedral, several "
             "lengths), Pythagorean point separations; the revolute angle's reference is chosen so that the elongation is a lattice number. The "
             "direction data of the subsystems come from the subsystems' own routines (exactness decided under C04). Rods as subsystems and "
             "n-point interactions are not covered. Floats become rationals by Fraction.limit_denominator(2^20), reported values that are not "
             "such rationals to 1e-11 are violations; corrupted records must be rejected (self-test).",
        technique="TLA+ dual-number (exact rational) specification model-checked by TLC + TLC trace validation of Jacobian columns recorded from the real elements",
        ref="5/C08",
    ),
    "C09": dict(
        level="model_checking",
        text="ForceLawAssembly.tla models System.assemble as phase 1 (t0, index sets, q0) plus assembler callbacks in list order with what "
             "each callback reads and provides; TLC enumerates every force-law class (both forms) x {TwoPointInteraction, Revolute} x "
             "registration order x angle0 x body kind (rigid body, multi-element rod cross-section) x session history (fresh, after an "
             "in-place restart of another system) and checks CallbackPreconditionsMet / DefaultIsStressFree; the as-found tree is rejected. "
             "Every configuration is built from the real classes on several poses, assembled, and force, energy, compliance residual and "
             "l_ref are compared with the spec's terminal state.",
        note="Finite configuration space enumerated exhaustively on both sides (120 configurations x 3-12 poses). Only supported "
             "configurations can raise a violation (a Revolute joint that is not part of the system is not supported). Stress-free is judged "
             "at u0 = 0.",
        technique="TLA+ spec + TLC exhaustive configuration enumeration, replay with the real classes",
        ref="5/C09",
    ),
    "C23": dict(
        level="exploration",
        text="Scheme.tla (the table of residual blocks every solver enforces at every returned point) is extended by the static solvers: Newton "
             "{equilibrium, g, c, quat, signorini, frame}, Riks {equilibrium, g, c, quat, frame}; TLC checks the table (a returned point of a static "
             "solver is an equilibrium of the whole model) and judges every record. Static problems are solved with the real Newton and Riks "
             "solvers: cantilever rods of all formulations (Quaternion / SE3 / R12, displacement-based / mixed / internally constrained) clamped "
             "by a RigidConnection and loaded by tip forces and follower moments that grow with the load parameter, a bar on a revolute joint with "
             "a spring (both forms), a point mass resting on a plane (static Signorini); every returned load step / arc-length point gives one "
             "record with the residual blocks evaluated from the returned Solution by the System's own routines; every rod problem is solved a "
             "second time after a random rigid motion of the whole problem (reference, clamp, dead loads) and the equilibria are compared "
             "(block frame).",
        note="Exploration: the residual thresholds are float comparisons in the harness (ok below 1e-6 relative to the load scale with solver "
             "tolerance 1e-8, violated above 1e-4, not judged in between); the model decides which blocks a returned point must satisfy. Runs that "
             "raise or stop early are judged under C21 (they must say so); the rows they return are judged here. Loads are small enough for a "
             "unique equilibrium branch.",
        technique="TLA+ table of enforced residual blocks model-checked by TLC + TLC trace validation of every load step returned by the real static solvers",
        ref="5/C23",
    ),
    "C24": dict(
        level="fault_enumeration",
        text="Restart.tla: (mechanism) a joint between two moving links captures body-fixed data at assembly; actions Advance/DeepCopy/Restart/PostProcess "
             "(a solver evaluating the system a posteriori along the rows of the leg); TLC checks ModelUnchanged, AngleKeepsMeaning, "
             "TrackerKeepsMeaning and RowsKeepMeaning for all histories up to the bound and rejects the two as-found designs (re-capturing "
             "restart; retrace with the end-of-run rotation counters); "
             "(plans) TLC enumerates all split plans of an N-step run. Every transition of the mechanism graph and long simulated histories "
             "are replayed into a real double pendulum and the body-fixed joint point/bases, constraint value, joint angle and parameters "
             "are compared after each action (PostProcess runs the real ScipyIVP.solve with a stubbed integrator); every split step k (plus nested "
             "splits, with/without deepcopy) is executed with every solver on nine systems (revolute/spherical chains, springs on revolute "
             "joints incl. fast spinning bars, sphere-plane and sphere-sphere contacts, a system starting before t=0, bodies sharing "
             "initial-state arrays) and compared with the uninterrupted run; after every segment the angle of every Revolute joint is compared "
             "with the rotation accumulated along the rows.",
        note="Runs of 8 (thorough 12) steps with solver tolerances 1e-12, trajectories compared at 1e-7 relative (SciPy wrappers 1e-5). A "
             "restart rejected loudly by the consistency assertions (schemes that do not enforce that level) is repeated with the documented "
             "bypass and judged on the trajectory; the count is in the evidence.",
        technique="TLA+ spec + TLC exhaustive histories / split plans, crash-point enumeration replayed into the implementation",
        ref="5/C24",
    ),
    "C13": dict(
        level="model_checking",
        text="Mesh.tla states connectivity from first principles, element lookup on integer knot partitions, the Lagrange basis as exact "
             "fractions and exact monomial integrals; TLC checks coverage, the shared-node property of neighbouring elements, partition of "
             "unity, zero-sum derivatives and the Kronecker property on every case (2616 states). Every case is replayed into Mesh1D, "
             "LagrangeKnotVector, LagrangeBasis, gauss and lobatto: integer arrays compared exactly, basis values against the exact fractions, "
             "quadrature sums against the exact integrals; at shared knots the memoised Mesh1D.eval_basis is asked for both elements in both orders.",
        note="Exhaustive over the property's stated parameter ranges for the discrete parts (degrees 1..5, element counts 1..12, dims 3/4/7, "
             "continuous and discontinuous meshes); basis points are the rationals r/s with s in {1,2,3,5,6}; Gauss n<=7, Lobatto n<=7, all "
             "admissible monomials, 12 intervals. Float tolerances 1e-11 (Gauss nodes are irrational). Second derivatives are not part of "
             "the property (observation: LagrangeBasis.deriv(n=2) divides by the interval length once).",
        technique="TLA+ exact-arithmetic spec + TLC exhaustive case enumeration, replay into the implementation",
        ref="5/C13",
    ),
    "C01": dict(
        level="model_checking",
        text="QuatKernel.tla defines N(P) = |P|^2 R(P) as integer polynomials and checks the cleared polynomial identities of every clause "
             "(orthonormality, determinant, scale invariance, homomorphism, tangent map x stated inverse, quaternion length kept, body-fixed "
             "spin = w, exactness of the stencil derivative, derivative annihilates P) on an integer grid that is a uniqueness set for their "
             "degree, i.e. for all real P. Each lattice quaternion carries the integer numerators the 16 routines (both normalising variants, "
             "derivatives, quatprod, skew helpers) must return; the real routines are evaluated at every point and compared.",
        note="Grid -2..2 (624 quaternions) in the quick tier, -3..3 (2400) in the thorough tier, plus 12 large-ratio points (components up to "
             "100, incl. exact unit quaternions). Code-side agreement extends beyond the grid under the assumption that the routines compute "
             "rational functions without branching on magnitudes (true by inspection). Floats enter through a 1e-9 snap to the integers.",
        technique="TLA+ exact-lattice spec + TLC exhaustive grid (polynomial identity argument), replay into the implementation",
        ref="4 and 5/C01",
    ),
    "C27": dict(
        level="model_checking",
        text="Prox.tla gives the negative-orthant and scaled-ball proximal maps on integer / Pythagorean lattices (dimension 1..4, radii mu*z "
             "incl. z <= 0), the Jacobians of the ball's implicit residual at arguments with integer norm, and the prox parameter for "
             "diagonal mass matrices as exact rationals; TLC verifies that the stated maps are the Euclidean projections (feasible, idempotent, "
             "projection inequality against every lattice point of the set, non-expansive) and characterises the derivative of the "
             "normalisation without limits. Every case is evaluated on the real NegativeOrthant / Sphere / estimate_prox_parameter, scaled by "
             "2^k for k in {0,-10,20,-40,60}, and compared with the spec's rationals.",
        note="1259 lattice cases x 5 dyadic scales. Inputs are restricted to vectors with integer Euclidean norm so that projections and "
             "Jacobians are rational; general SPD mass matrices are compared with the definition alpha/diag(W^T M^-1 W) computed by the harness "
             "(float, 1e-10).",
        technique="TLA+ exact-lattice spec + TLC exhaustive case enumeration, replay into the implementation",
        ref="5/C27",
    ),
    "C18": dict(
        level="exploration",
        text="ContactLaw.tla states the discrete Signorini-Coulomb laws per scheme class (velocity level at the midpoint: Moreau, dual "
             "Stoermer-Verlet; position level: backward Euler; RATTLE's two stages) over abstract values, and TLC model-checks the lemma that the "
             "prox fixed point the code iterates is equivalent to the complementarity statement (normal and 1-D Coulomb case). Seeded random "
             "scenes of spheres and planes (rigid bodies / point masses, sphere-plane and sphere-sphere contacts, e_N in [0,1], mu in [0,1], dt over "
             "two decades, alternating impacts, free-space collisions for the energy clause) are simulated with all four solvers; for every "
             "stored step and contact the harness recomputes the scheme's quantities, classifies them and TLC evaluates the law on every record.",
        note="Exploration by trace validation: the decisive comparisons are float thresholds in the harness (solver tolerances 1e-10, zero "
             "thresholds 1e-8..1e-6, a factor-10 borderline band that is not judged); TLC contributes the law, the lemma and total coverage "
             "of the recorded steps. Two known findings are listed in known_findings.json (BackwardEuler friction direction, RATTLE energy in "
             "oblique sphere-sphere impacts). e_F = 0 in all scenes.",
        technique="TLA+ law spec (lemma model-checked) + TLC trace validation of recorded solver steps",
        ref="5/C18",
    ),
    "C16": dict(
        level="model_checking",
        text="ConsistentIC.tla gives (decide) the accept/reject table over abstract facts of the initial state, (scene) the acceleration-level "
             "Signorini-Coulomb problem of a point mass on a plane with integer data and its constructive rational solution (lift-off, slide, "
             "stick, break-away), which TLC checks against the declarative conditions of the property on the whole lattice, and (trace) the law "
             "every recorded assembly must satisfy. Lattice scenes are assembled with the real classes and u_dot0, la_N0, la_F0 compared with "
             "the rationals; every realisable decision-table case is built and must be accepted/rejected; seeded random consistent systems "
             "(hinged chains with actuators, force laws in both forms, Maxwell elements, balls resting/sliding/separating, chain tips resting "
             "on a floor) are assembled and their residuals validated by TLC.",
        note="Model checking for the lattice scenes and the decision table (exact, compared at 1e-9 with fixed_point_atol 1e-12); the random "
             "systems are exploration (residual thresholds 1e-8..1e-6 relative to the force scale, booleans judged by TLC). The fact "
             "'velocity-level bilateral constraint violated' is not realised (no stand-alone gamma constraint class in the library).",
        technique="TLA+ exact-lattice spec + TLC enumeration, replay into System.assemble; TLC trace validation of recorded assemblies",
        ref="5/C16",
    ),
    "C03": dict(
        level="model_checking",
        text="RotationDerivatives.tla: along a ray psi = eps n (integer vector n of integer length, the scale eps a symbol) the maps Exp_SO3, T_SO3, "
             "T_SO3_inv are linear in sin a, cos a, cot(a/2) (a = |n| eps) with Laurent-polynomial coefficients in eps. TLC evaluates the maps in dual "
             "arithmetic over such elements (d sin = cos da, d cos = -sin da, d cot(a/2) = -(1 + cot^2)/2 da) and so derives every entry of their "
             "derivatives exactly, for every eps at once; it checks that the axis is fixed by all three maps (also to first order) and that the window "
             "of powers of eps suffices. For every case (6 rays x 4 directions) the harness substitutes eps = 2^-j, j up to 30 (|psi| down to 1e-9; "
             "psi exactly representable) and the limit eps -> 0, evaluates TLC's elements with sin, cos, cot computed to 40 digits in rational "
             "arithmetic and compares with Exp_SO3_psi, T_SO3_psi, T_SO3_inv_psi, T_SO3_dot, Exp_SE3_h and the maps themselves.",
        note="Claimed for the rotation-vector maps. Not covered: Log_SO3_A and Log_SE3_H (derivatives with respect to matrix entries). The quaternion "
             "tangent maps T_SO3_quat_P / T_SO3_inv_quat_P are rational and decided under C01. Comparison tolerance 1e-7 relative to 1 + |value| "
             "(the routines' closed forms lose digits like 1e-16 / |psi|, about 1e-8 at |psi| ~ 1e-8; the defects found were errors of 1e-4 to 0.5). A corrupted element must evaluate differently (self-test).",
        technique="TLA+ exact symbolic differentiation (dual numbers over Laurent-trigonometric elements) by TLC, results replayed into the rotation routines at exactly representable points",
        ref="5/C03",
    ),
    "C04": dict(
        level="model_checking",
        text="RigidKinematics.tla gives position, velocity, acceleration of a body point, the kinematic equation, the gyroscopic force, "
             "the mass matrix and all their partial derivatives as integer numerators over powers of |P|^2, for rigid bodies, point masses and "
             "frames with polynomial-quaternion motion; TLC checks on the lattice (a uniqueness set for the cleared identities) that velocity is "
             "the rate of position along the kinematic equation, acceleration the rate of velocity, the quaternion length is kept, gyroscopic "
             "forces do no work, M is SPD and kinetic energy is u^T M u / 2, and that the frame's angular velocity/acceleration are those of its "
             "rotation (derivatives by exact stencils, never the code's formulas). Every case is evaluated on one long-lived RigidBody (caches as "
             "shipped, re-evaluated at translated positions), on Frames with analytic derivatives and on PointMass: 47 routine outputs per "
             "rigid case compared with the spec's integers; the property's clauses are also evaluated on the code's own outputs.",
        note="Identities on the grid -2..2 (thorough -3..3); binding on every 5th (3rd) quaternion of it x offsets x angular velocities x "
             "angular accelerations (4.5k rigid cases, 54 frame cases, 36 point-mass cases). Agreement on the grid extends to all inputs under "
             "the assumption that the routines compute rational functions without branching on magnitudes. Frames with numerically "
             "differentiated motion are not judged.",
        technique="TLA+ exact-lattice spec + TLC exhaustive grid (polynomial identity argument), replay into the implementation",
        ref="4 and 5/C04",
    ),
    "C05": dict(
        level="model_checking",
        text="JointKernel.tla: a joint sees its subsystems through joint points and joint bases X=(r1,r2,E1,E2) and their motion; the "
             "position-level constraint of every joint type (full/projected translation, rotation pairs, fixed distance) is a polynomial in X, "
             "and the velocity level, acceleration level, W_g, g_q, g_dot_q, g_dot_u and Wla_g_q are defined by exact difference stencils along "
             "the flow (no calculus); TLC checks these definitions against the textbook closed forms, the degree bounds and linearity on an "
             "integer lattice. Every joint type x axis x 11 subsystem pairings (origin, translating/rotating frames, rigid bodies, point masses, "
             "nodal cross-sections of quaternion-interpolated rods of degree 1 and 2) x placement is assembled from the real classes and "
             "evaluated at lattice states that violate the joint; X, motion and derivative directions come from the subsystems' own "
             "kinematic routines, and TLC recomputes every level of every record from the kernel and names the routine that differs. g(t0,q0)=0 "
             "is checked on every assembled joint.",
        note="Orientations are octahedral (integer rotation matrices) realised by non-unit integer quaternions; positions, offsets, velocities, "
             "accelerations and multipliers are small integers, so every recorded quantity is an exact integer (derivative directions after "
             "scaling by a power of |P|^2). In addition origin-rigid and rigid-rigid pairings with joint bases and body orientations that are "
             "rotations of small integer quaternions such as (2,1,0,0) (not axis-aligned; every group of inputs carries its common denominator, "
             "the kernel stays in integers). 474 records in the quick tier, ~2500 in the thorough tier. Rod cross-sections only at nodal xi of the "
             "quaternion-interpolated family (non-nodal xi, SE(3) and R12 rods are not covered). The subsystems' kinematic routines are decided "
             "separately by C04. A corrupted record must be rejected (self-test).",
        technique="TLA+ exact-arithmetic kernel spec model-checked by TLC + TLC trace validation of records taken from the real joints",
        ref="5/C05",
    ),
    "C06": dict(
        level="model_checking",
        text="ContactKernel.tla: (P) sphere against a plane of constant orientation - gap = signed distance of the sphere surface, slip = "
             "tangential relative velocity of the touching material points scaled by the anisotropy, all rates and derivatives defined by exact "
             "stencils along the flow; (S) sphere against sphere on configurations with integer centre distance in exact rational arithmetic, "
             "derivatives from differentiating the polynomial identities d^2 = r.r, m^2 = w.w; (A) the System contact interface (every method "
             "returns a value or is declared unimplemented; the quantities of the hierarchy must be values). TLC checks the definitions against "
             "closed forms and geometric facts on a lattice. Real Sphere2Plane / Sphere2Sphere contacts between rigid bodies, point masses, "
             "frames and nodal rod cross-sections (13 + 7 pairings, friction on/off, radii, anisotropy, offsets) are assembled and evaluated at "
             "lattice states; every record (g_N, g_N_dot, g_N_ddot, gamma_F, gamma_F_dot, W_N, W_F, g_N_q, g_N_dot_q, gamma_F_q, gamma_F_dot_q, "
             "gamma_F_dot_u, Wla_N_q, Wla_F_q) is recomputed by TLC from the kernel; all 20 System contact methods are called on every system kind.",
        note="Planes: constant orientation, octahedral or tilted (rotation of a small integer quaternion, entering the kernel as F / s), "
             "polynomial translation (the property's quantifier); bodies at octahedral and at generic rational orientations. Sphere-sphere: Pythagorean separations with "
             "integer |t2_ref x r12|, axis-aligned reference basis from assembly, the convention t1 || t2_ref x n is part of the spec; with a "
             "sphere on a moving frame the same coordinates are evaluated at two times. Body orientations octahedral (integer quaternions). "
             "A corrupted record must be rejected (self-test).",
        technique="TLA+ exact-arithmetic kernel spec model-checked by TLC + TLC trace validation of records taken from the real contacts",
        ref="5/C06",
    ),
    "C10": dict(
        level="model_checking",
        text="RodKinematics.tla, invariant ObjectivityOK: under a rigid motion of an element (r_i -> R0 r_i + d, P_i -> Q0 o P_i) the strain measures of "
             "the Quaternion and R12 families and the body-fixed nodal couples of the weak form are unchanged, the nodal forces turn with R0, and the "
             "nodal forces of an element have zero resultant (TLC, exact rationals, every lattice case; the stress resultants vanish where the strains "
             "equal the reference strains by definition of the weak form). Real rod elements (Quaternion / R12, displacement-based / mixed, degree "
             "1 / 2) with rational quadrature abscissae are evaluated at the reference configuration, at rational states and at the same states moved "
             "by a rational rigid motion; TLC recomputes the internal forces (W_c la_c and c_el for the mixed rods) of every record from the weak "
             "form and the harness compares the moved / unmoved pairs. Float supplements on genuine rods (Gauss rules; Quaternion, SE3 and R12; "
             "displacement-based, mixed, internally constrained; straight and curved references): zero energy / forces / residuals at the "
             "reference, invariance of E_pot, c and g under random rigid motions, of the forces under translations, zero resultant.",
        note="Claimed for the rational core: Quaternion and R12 interpolation, Simo1986 material, rational quadrature abscissae (the one-point rule "
             "of linear elements as it is; substituted abscissae for quadratic elements, see C11). The SE(3) family, curved references and the "
             "genuine Gauss rules are covered by float comparisons at 1e-9 only. A corrupted record must be rejected (self-test).",
        technique="TLA+ dual-number (exact rational) specification with objectivity / self-equilibrium invariants model-checked by TLC + TLC trace validation of internal forces recorded from real rod elements",
        ref="5/C10",
    ),
    "C11": dict(
        level="model_checking",
        text="RodKinematics.tla states the rod element's cross-section kinematics (centreline and orientation interpolation of the Quaternion and "
             "R12 families, strain measures B_Gamma_bar / B_Kappa_bar, r_OP, v_P, B_Omega) and the nodal kinematic equation / unit-quaternion "
             "condition once, in dual numbers over exact rationals: moving one nodal coordinate by eps yields the true column of every Jacobian. "
             "TLC checks on a lattice that the quaternion family interpolates rotations (also to first order), that the curvature formula is the "
             "axial vector of A^T A', that a node's cross-section has the nodal values and that q_dot keeps |P|^2; the as-found q_dot_u is "
             "rejected. Real rod elements (Quaternion / R12, displacement-based / mixed, degree 1 / 2) at rational states with non-unit integer "
             "nodal quaternions and rational xi (nodes and in between) give one record per coordinate direction of q_e / u_e with the columns of "
             "_deval, r_OP_q, A_IB_q, v_P_q, J_P, J_P_q, B_J_R, and one per node and component with q_dot, q_dot_q, q_dot_u, g_S, g_S_q (incl. "
             "SE3 rods); the element's weak form (f_int_el / f_int_el_qe of the displacement-based rods, W_c_el la_c / Wla_c_el_qe / c_el / c_el_qe of "
             "the mixed rods, Simo1986 material) is recorded per element and coordinate direction from rods whose quadrature abscissae are rational "
             "(the genuine one-point rule of linear elements; rational abscissae written into the tables of quadratic elements) and evaluated by TLC "
             "as the sum over quadrature points of the same dual quantities; TLC recomputes every record. Float supplements: q_dot_u is the matrix of u -> q_dot, M symmetric positive semidefinite, "
             "E_kin = u^T M u / 2, gyroscopic forces power-free.",
        note="Claimed for the rational part of the property only. Not covered: internally constrained rods (g_el, W_g_el, Wla_g_q_el), the SE(3) "
             "interpolation (transcendental), a_P derivatives; the weak form of quadratic elements is checked at substituted rational abscissae "
             "(quadrature points are data of the rod), not at the irrational Gauss points. Shape-function "
             "values come from the rod's basis_functions_r (mesh layer: C13). Corrupted records must be rejected (self-test).",
        technique="TLA+ dual-number (exact rational) specification model-checked by TLC + TLC trace validation of Jacobian columns recorded from real rod elements",
        ref="5/C11",
    ),
    "C12": dict(
        level="model_checking",
        text="MaterialLaw.tla states the strain energies of Simo1986 and Harsch2021 on strain states with integer |B_Gamma| and |B_Gamma0| "
             "(reference vectors of length 1, 2, 3, 5, 7) in exact rational arithmetic; forces, couples and tangents are defined as gradients "
             "without calculus (central differences of the quadratic part, the stretch's derivative from 2 l l' = (G.G)'); TLC checks them against "
             "the closed forms, the tangent against the differentiated identity l n = ..., tangent symmetry, and Legendre duality of the quadratic "
             "law on the whole lattice. Every case is evaluated on long-lived law objects (equal strains with different reference strains "
             "consecutively): potential, B_n, B_m and the four tangents are compared with the spec's rationals; every law object that provides a "
             "complementary energy or compliance matrices is checked for Legendre duality.",
        note="448 cases quick, ~7k thorough. Harsch2021 is decided only on strains with integer Euclidean length (there its energy, force and "
             "tangent are rational); compared at 1e-12 relative.",
        technique="TLA+ exact-arithmetic spec + TLC exhaustive case enumeration, replay into the implementation",
        ref="5/C12",
    ),
    "C02": dict(
        level="exploration",
        text="RotationCharts.tla: the lattice of exact rational rotations R = N(P)/|P|^2 including exact half-turns and rotations within 0.01 rad "
             "of a half-turn; Spurrier's algorithm with the square root factored out is integer arithmetic and TLC model-checks, for every lattice "
             "quaternion and every admissible branch (ties of the branch selection included), that the radicand is the square of the chosen "
             "component, the divisions are exact and the result is +-P/|P|, a unit quaternion that reproduces R. Every lattice rotation is fed to the "
             "real Spurrier (scaled output must be one of the spec's admissible integer vectors), Log_SO3/Exp_SO3/Log_SE3/Exp_SE3 (round trips against "
             "the spec's exact matrix and the rotation vector 2 atan2(|p|,p0) p/|p|), T_SO3/T_SO3_inv (product = I for |psi| in [1e-9, 2 pi - 1e-2], "
             "columns = body-fixed spin of Exp_SO3); float matrices at distances 1e-3..3e-17 around each exact half-turn are added.",
        note="Model checking for the Spurrier clause (spec level all lattice points; code bound on the same points). The transcendental clauses "
             "(Exp/Log round trips, tangent maps, SE(3)) are float comparisons in the harness on lattice-driven inputs: tolerances 1e-12 (Exp, "
             "Spurrier), 1e-9 (through Log_SO3), 1e-8 (SE(3), T*T_inv scaled by |T_inv|^2), 2e-8 (spin by central differences). Log_SO3 = psi is "
             "judged only >= 1e-6 rad away from a half-turn (closer the sign of psi is not determined by the matrix).",
        technique="TLA+ exact-lattice spec + TLC exhaustive grid for Spurrier; lattice-driven replay of the charts with float round-trip oracles",
        ref="5/C02",
    ),
    "C07": dict(
        level="model_checking",
        text="ForceElements.tla states the spring, Kelvin-Voigt and Maxwell laws with their energies in exact rational arithmetic; the energy rate "
             "is an exact central difference of E along the motion; TLC checks on a rational lattice that the compliance residual vanishes at the "
             "force-form force and that power + energy rate equals minus the damper's dissipation (<= 0; = 0 for the spring); a dead load has "
             "E = -F.r and power F.v. Real Spring / KelvinVoigtElement (both forms) / MaxwellElement on real TwoPointInteractions between rigid "
             "bodies, point masses and translating/rotating frames (offsets on both points, default and explicit l_ref) are evaluated at lattice "
             "states with integer point distance; l, l_dot (code, W_l^T u, geometric rate from the subsystems' kinematics), force, energy, "
             "compliance residual and h.u form one record that TLC recomputes; real Force objects on rigid bodies, point masses and rod nodes "
             "likewise. System.E_pot is evaluated on systems containing every energy-reporting contribution class for four rod families.",
        note="Exact part: two-point interactions where the point distance is an integer (then every quantity is rational). Laws on Revolute "
             "joints (3 axes, states on the joint manifold) and the power balance of the line-distributed rod load are float comparisons in the "
             "harness (1e-10 / 1e-9). With prescribed frame motion the power clause is stated for the part of l_dot due to u. Gyroscopic terms "
             "are decided under C04. A corrupted record must be rejected (self-test).",
        technique="TLA+ exact-arithmetic law spec model-checked by TLC + TLC trace validation of records taken from the real force elements",
        ref="5/C07",
    ),
    "C17": dict(
        level="exploration",
        text="Scheme.tla holds the table of residual blocks every integrator enforces at which point of a step (RATTLE: g and g_dot at the stored "
             "state; backward Euler and dual Stoermer-Verlet: g; Moreau: g_dot at the midpoint configuration; stabilised DAE wrapper: g, g_dot, no "
             "drift; ODE wrapper: equations of motion and g_ddot with the reported accelerations/multipliers; unit quaternions for the solvers that "
             "normalise) and the verdict for a recorded step. Seeded random open and closed chains (revolute, spherical, cylindrical, prismatic, "
             "rigid joints, fixed-distance closures, point-mass pendulums, force laws in force and compliance form) are simulated with all six "
             "solvers at step sizes over two decades, plus fast planar chains with coarse steps and default tolerances where Newton fails after "
             "some steps; for every stored step the harness evaluates the blocks with System methods, classifies them and TLC evaluates the table.",
        note="Exploration by trace validation: the decisive comparison is a float threshold in the harness (solver tolerances 1e-10: g <= 1e-7, "
             "g_dot <= 1e-7 x velocity scale, |P|^2-1 <= 1e-12, DAE wrapper 1e-6, ODE wrapper 1e-8/1e-7 x force scale; 'violated' only above 100x the "
             "threshold, in between not judged). TLC contributes the scheme table and total coverage of the stored steps. Runs that end loudly are not "
             "judged here (C21). Two synthetic records check that the table bites.",
        technique="TLA+ scheme table + TLC trace validation of the stored steps of real solver runs",
        ref="5/C17",
    ),
    "C28": dict(
        level="model_checking",
        text="UrdfFK.tla: link trees over the octahedral lattice (joint types fixed, revolute, continuous, prismatic, planar, floating; origins = "
             "integer translation + rpy in quarter turns; six signed axes; coordinates = quarter turns / integer displacements; integer rates; "
             "fixed and floating roots; inertial frames with offset and rotation). TLC builds every link frame by URDF semantics one joint per step "
             "in integer arithmetic (an oracle written from the URDF definition, not from the importer) and checks the oracle's own invariants. "
             "For every final state the harness writes the URDF, calls system_from_urdf with the requested configuration and velocities (entries "
             "for zero coordinates omitted; floating joints as 6- and 7-vectors) and compares every imported body's r_OP, A_IB, v_P, B_Omega with "
             "the spec, System.g / g_dot at the initial state with zero and Revolute.angle / angle_dot with the request. UrdfFKQ.tla restates the "
             "same semantics over exact rationals (angles with rational sine and cosine: quarter turns and the 3-4-5 angles; rational unit axes such "
             "as (3,4,0)/5 and (1,2,2)/3; Rodrigues rotations) for single joints and two-joint chains, replayed the same way.",
        note="UrdfFK: single joints 3 roots x 6 types x 6 axes x 8 origin rotations x 3 coordinates x 2 rates; trees: 3 roots x 7^3 joint menus x 6 parent "
             "assignments; UrdfFKQ: single joints 3 roots x 6 types x 5 axes x 7 origin rotations x 3 coordinates x 2 rates, chains from a menu of 7; a "
             "deterministic stride thins all families (quick: 365 + 95 + 269 + 74 robots). Planar joints with axis z and (x, y) in the joint frame; "
             "floating joints carry a relative angular velocity in the joint frame, and have no displacement when they do (URDF does not fix the reading "
             "of the linear part there); the <axis> element is omitted in every second case where it equals the URDF default; a non-floating root at rest.",
        technique="TLA+ exact-arithmetic forward-kinematics specs (integer and rational) + TLC enumeration, replay into the importer",
        ref="5/C28",
    ),
    "C29": dict(
        level="exploration",
        text="Export.tla models the export protocol: frame selection (every frac-th solution row), collection names made unique among name, "
             "name1, name2, ... (names are token sequences so that a derived name can coincide with a requested one), one data file per "
             "exported frame named after the collection; TLC checks Listed / NoClobber for every sequence of calls up to the bound and rejects "
             "the design in which only the collection name is unique. Seeded random systems (tumbling rigid bodies, point masses, a rotating and "
             "translating frame, a meshed box, a dead load with offset, a sphere-plane contact) are simulated; Export sessions with random frame "
             "rates in binary and ASCII mode make 12 calls each in random order (same body twice, lists, the box as mesh and as base export, the "
             "same file_name twice); the folder is read back with the VTK reader and TLC validates per call: one entry per exported frame, files "
             "exist, time order, listed time = time of the exported row, each file holds the geometry of that call and frame.",
        note="Exploration by trace validation: file content is compared in the harness with geometry recomputed from the solution row by the "
             "harness' own quaternion kinematics at 2e-6 relative (VTK stores points as float32); TLC contributes the protocol model and the "
             "clauses evaluated on every call. Rods are not exported here. Observation (not part of the property): Export stores "
             "write_ascii as a 1-tuple, so files are always written in ASCII.",
        technique="TLA+ protocol spec model-checked by TLC + TLC trace validation of export sessions read back from disk",
        ref="5/C29",
    ),
}

NOT_APPLICABLE = {
}

NOT_BUILT = "in family (see DESIGN.md section 5) but its check is not built yet"


def main():
    props = [json.loads(l) for l in open(os.path.join(ROOT, "properties.jsonl"))]
    checks = []
    na = []
    # what the third and fourth seeding rounds added to a check (DESIGN.md Appendix E)
    ROUND3 = {
        "C29": "Literal suffixed file names next to repeated ones; a rod with explicit ncells; the binary session of every solution always thins.",
        "C26": "Object family s2s0 (frictionless contact); a live mesh sibling on another partition is asked before every call.",
        "C10": "Tiny strains (1e-5 .. 1e-8 from the reference) with relative comparisons.",
        "C06": "A companion contact of the same class on the same body is kept alive and evaluated before every record; test bodies carry decoy attributes (radius).",
        "C05": "Unit changes: the mechanism rebuilt with every length times 2^-30 and compared with the scaled original (JointKernel.tla Homogeneous).",
        "C02": "Arguments typed as integers must give what the same numbers typed as floats give (typed_arguments).",
        "C03": "In-place histories (one buffer overwritten between calls) for every rotation-vector routine; the quaternion tangent maps' derivatives for both normalize variants through QuatKernel.tla. Arguments typed as integers (typed_arguments).",
        "C07": "Laws on Revolute joints also on oblique bases and between two moving bodies (angle and energy rates by central differences); consecutive evaluations that differ in the velocity only.",
        "C08": "Revolute cases also with translating / rotating frames as partners. A sibling interaction and the same element at other times are evaluated before every record.",
        "C09": "History used_then_reset: the assembled system is evaluated away from its initial configuration, then System.reset().",
        "C11": "History: element-wise post-processing with explicit element numbers before the nodal-interpolation check. Assembled Jacobians (h_q, c_q; Simo1986 and Harsch2021) against central differences after an evaluation with the same quaternions.",
        "C12": "Second pass with long-lived argument arrays overwritten in place.",
        "C13": "The tables a Mesh1D precomputes (qp, wp, N, N_xi; Gauss and Lobatto) on non-uniform partitions, and live meshes of one degree asked alternately.",
        "C14": "Every matrix method also with format coo / csr / csc / array. Stub quantities in other units (integers times 2^-60 / 2^40).",
        "C15": "Coo.tla models the nested container the caller still holds (kid, PokeKid, KidIndependent); every sequence of up to three nested / dense writes is replayed with the child kept alive; dense blocks arrive in eight memory layouts. Block values in other units (powers of two).",
        "C16": "Re-initialisation also with every ball lifted off the plane. Dedicated systems: contact orders, a slow contact fixed point with several iteration budgets, initial states typed as integers.",
        "C17": "Half of the random systems have products of inertia. Solver option variants (ScipyIVP without precomputed initial conditions, DualStormerVerlet(accelerated=False)); feature coverage independent of the seed.",
        "C18": "Scene kind with balls of unequal principal inertias sliding obliquely.",
        "C19": "A top released from rest; every second system run to a final time that is no multiple of the step.",
        "C20": "TimeGrid.tla LongRuns (1000 .. 20000 steps, final time just before / on / after a grid point); a save / load session.",
        "C21": "Failures without injection (static problem without equilibrium with pseudo-inverse linear solvers; fast-spinning body under DualStormerVerlet) watched by independent observers of fsolve and the fixed-point helpers (site 'unmet' in SolverRun.tla).",
        "C22": "The momentum helper is also started far away from the fixed point.",
        "C24": "Systems shaken_support (joint partner with prescribed motion) and spinning_bar_coarse_output. System torsional_oscillator_default_reference.",
        "C25": "Frames with time-dependent orientation as joint partners (rate of the tracked angle against l_dot).",
        "C27": "The prox parameter in other units (powers of two).",
    }
    for p in props:
        pid = p["id"]
        if pid in CLAIMED:
            c = CLAIMED[pid]
            checks.append({
                "property_id": pid,
                "quick_cmd": f"./check {pid} --tier quick",
                "thorough_cmd": f"./check {pid} --tier thorough",
                "evidence_file": f"/verif/evidence/{pid}.json",
                "replay_cmd_template": f"./check {pid} --replay {{path}}",
                "engine": "tlc+replay",
                "level_claimed": {"category": c["level"], "text": c["text"], "design_ref": "DESIGN.md section " + c["ref"]},
                "level_note": c["note"] + (" " + ROUND3[pid] if pid in ROUND3 else ""),
                "technique": c["technique"],
            })
        elif pid in NOT_APPLICABLE:
            na.append({"property_id": pid, "reason": NOT_APPLICABLE[pid]})
        else:
            na.append({"property_id": pid, "reason": NOT_BUILT})
    try:
        commits = subprocess.run(["git", "-C", "/repo", "log", "--format=%H %s", "--grep=^hook:"], capture_output=True,
                                 text=True).stdout.strip().splitlines()
    except Exception:
        commits = []
    m = {
        "version": 1,
        "setup_cmd": "./setup.sh",
        "hooks": {
            "guard": GUARD,
            "enable": f"checks run /venv/bin/python with PYTHONPATH=/repo and {GUARD}=1 (no build step: cardillo is pure Python and imported from /repo's working tree)",
            "baseline_off_cmd": "cd /repo && env -u " + GUARD + " /venv/bin/python -m pytest -ra -q -p no:cacheprovider --timeout=900 --continue-on-collection-errors",
            "source_commits": [c.split()[0] for c in commits],
            "add_only": True,
        },
        "engines": [
            {"name": "tlc+replay", "path": "/verif/harness/vf", "serves_properties": sorted(CLAIMED),
             "kind_free_text": "TLA+ specifications in /verif/spec checked with TLC; behaviours/cases generated by TLC are replayed into "
                               "the real cardillo objects (spec->code) and traces recorded from cardillo are validated by TLC trace specs (code->spec)"},
        ],
        "checks": checks,
        "not_applicable": na,
        "notes": "See DESIGN.md. Known findings: /verif/known_findings.json.",
    }
    with open(os.path.join(ROOT, "MANIFEST.json"), "w") as f:
        json.dump(m, f, indent=1)
    print(f"claimed={len(checks)} not_applicable={len(na)}")


if __name__ == "__main__":
    main()
