#!/usr/bin/env python3
"""One-off editor: splice the as-built sections in /tmp/design/*.md into DESIGN.md (development time only)."""
import re
D='/verif/DESIGN.md'
s=open(D).read()
def rd(n): return open(f'/tmp/design/{n}.md').read()
def replace_between(s, start_pat, end_pat, new):
    a = re.search(start_pat, s, re.M)
    b = re.search(end_pat, s[a.start()+1:], re.M)
    return s[:a.start()] + new + s[a.start()+1+b.start():]
# header
a = s.index('## 1. What is verified')
s = rd('sec0') + s[a:]
s = replace_between(s, r'^## 2\. Specification architecture', r'^## 3\. Binding', rd('sec2'))
for pid, nxt in (('C02','### C03'),('C04','### C05'),('C05','### C06'),('C06','### C07'),('C07','### C08'),('C12','### C13'),('C17','### C18'),('C28','### C29')):
    s = replace_between(s, rf'^### {pid} ', rf'^{re.escape(nxt)} ', rd(pid.lower()))
s = replace_between(s, r'^### C29 ', r'^-{20,}\n\n## 6\.', rd('c29'))
s = replace_between(s, r'^## 6\. Observations', r'^## 7\. Soundness', rd('sec6'))
s = replace_between(s, r'^## 8\. Hooks in /repo', r'^## 9\. Not applicable', rd('sec8'))
s = replace_between(s, r'^## 9\. Not applicable', r'^## 10\. Layout', rd('sec9'))
s = replace_between(s, r'^## 10\. Layout', r'^## Appendix A', rd('sec10'))
open(D,'w').write(s)
