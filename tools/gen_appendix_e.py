#!/usr/bin/env python3
"""Regenerate Appendix E of DESIGN.md (seeded changes vs. checks) from seeded/*/ (notes.md, patch.diff, meta.json)."""
import os, re, json
root = '/verif/seeded'
LATE = {
 "C01-C": "rescaled and near-unit lattice points (every direction at several lengths within 1e-3 of 1)",
 "C02-D": "purity histories: expected values first, then an uninterrupted call sequence on one buffer mutated in place",
 "C05-D": "pairings outermost, one shared bit-identical state evaluated first and last on every joint",
 "C05-G": "unit changes: the mechanism is built a second time with every length multiplied by 2^-30 (exact in binary floating point) and every routine compared with the scaled first one; the powers are the kernel's (`Homogeneous` in JointKernel.tla)",
 "C06-G": "a companion contact of the same class on the same body against another plane / sphere is kept alive and asked for everything right before every record",
 "C06-H": "decoy attributes: bodies carry geometry of their own (`radius`, as the meshed shapes do)",
 "C08-G": "a sibling interaction between the same subsystems is asked at the same (t, q, u) right before every record",
 "C08-H": "the element is asked at the same (q, u) at two other times before every record (Revolute with a rotating frame as partner)",
 "C10-H": "tiny strains: states 1e-5 .. 1e-8 away from the reference; forces proportional to the displacement, invariant under translations, energy objective (relative comparisons)",
 "C14-H": "all stub quantities are integers times a power of two chosen per behaviour (2^-60, 1, 2^40): the same model in other units",
 "C16-G": "dedicated systems: a heavy frictionless and a light frictional sliding ball on an oblique plane, added in both orders; ball masses vary in the random systems",
 "C16-H": "dedicated systems: a three-legged stool whose contact fixed point needs ~190 sweeps, with budgets below and above, with and without `continue_with_unconverged`",
 "C29-G": "a literal file name `custom1` next to a repeated `custom`",
 "C29-H": "a third rod with the degree and the frame count of the first one on a finer mesh (explicit `ncells`)",
 "C11-G": "the assembled Jacobians (h_q, c_q) against central differences at a state that differs from the state evaluated just before in the nodal positions only",
 "C11-H": "the same supplement on displacement-based rods with the second material law (Harsch2021), degree 2 (two quadrature points per element)",
 "C17-G": "ScipyIVP also on a system assembled with `compute_consistent_initial_conditions=False`; the wrapper's first output time is judged as well",
 "C17-H": "DualStormerVerlet also with the non-default `accelerated=False`",
 "C24-G": "system `torsional_oscillator_default_reference`: a Spring with the default reference on an axis-aligned joint (the undeformed angle is exactly 0.0)",
 "C26-G": "a third live mesh of the same degree and element count on another partition is asked for the same (xi, el) right before every call",
 "C26-H": "object family `s2s0`: the frictionless contact (mu = 0), whose tangent tables exist all the same",
 "C12-G": "after the caller has scaled the stiffness arrays a law was built from, the law must still be hyperelastic (central differences of its own energy and forces)",
 "C12-H": "the stiffness vectors are handed over typed as integers for every second law object",
 "C13-H": "`element_number` for several parameters at once, in any order, the end point among them",
 "C09-G": "every second two-point case in a fresh session: a system with initial time 1.3 and a driven frame as partner (at rest at the initial time, elsewhere at other times)",
 "C27-H": "the lattice point typed as integers is projected too",
 "C20-G": "TimeGrid.tla LongRuns: late initial times (a day, an hour, in ticks of 1e-3) where (t1 - t0) / dt is off by many ulps",
 "C20-H": "two iterations over one solution alive at the same time (pairs of consecutive records, nested loops)",
 "C22-H": "a fourth style of the fixed-point maps: the map writes into and returns one persistent output array",
 "C03-E": "in-place histories in C03: every rotation-vector routine is called on one buffer that is overwritten between calls (and on a view that is scaled in place) and must return exactly what it returns for a fresh array",
 "C03-F": "the quaternion tangent maps' derivatives with `normalize=False` (QuatKernel.tla `dTun`, `dTi`); the kernel's large-ratio points are replayed under C03 too",
 "C07-E": "consecutive records of one element at the same configuration with other velocities (lattice records) and `la_c(q, -u)` right after `la_c(q, u)` on Revolute joints",
 "C07-F": "Revolute laws on oblique joint bases and between two moving bodies; the rate of the angle and of the energy along the motion by central differences (all three axes)",
 "C08-E": "Revolute cases with frames as partners: (`rigid`, `rframe`), (`rframe`, `rigid`), (`tframe`, `rigid`)",
 "C09-E": "history `used_then_reset` in ForceLawAssembly.tla: the assembled system is evaluated with the joint turned forward and back beyond its initial angle, then `System.reset()`",
 "C11-E": "history: a fresh rod is first asked element by element with explicit element numbers at both ends of every element, then nodal interpolation is checked at every node, then the elements again",
 "C12-E": "second pass over all lattice cases with four long-lived argument arrays that are overwritten in place from case to case (nothing else is called in between)",
 "C13-E": "live meshes of one degree on different partitions are asked alternately for the same element index at fresh points",
 "C13-F": "the tables a `Mesh1D` precomputes (`qp`, `wp`, `N`, `N_xi`, Gauss and Lobatto) on every lookup partition: points inside their element, weights, composite exactness, the element's Lagrange basis",
 "C14-F": "every matrix method of the scatter table is called with `format` in coo / csr / csc / array and compared with the dense reference",
 "C15-E": "a dense block arrives in one of eight memory layouts (C, Fortran, transposed / strided / reversed / offset views, integer dtype)",
 "C15-F": "Coo.tla: the nested container the caller still holds (`kid`), `PokeKid`, `KidIndependent`; every sequence of up to three writes of {nested, dense} x {all, identity array, 1:, 0} replayed with the child kept alive",
 "C16-F": "a third re-initialisation with every ball lifted off the plane (contacts that carried load are open)",
 "C17-F": "half of the random systems carry an inertia tensor with products of inertia (not given in principal axes)",
 "C18-E": "scene kind `inhomogeneous`: balls with unequal principal inertias at oblique orientations, spinning and sliding obliquely",
 "C19-E": "system kind `top_from_rest`: three different principal inertias, spherical joint with an oblique lever, released from rest",
 "C19-F": "every second system is run to a final time that is no multiple of the step (there and back over the same duration)",
 "C20-E": "TimeGrid.tla `LongRuns`: 1000 .. 20000 steps with the final time just before / on / just after a grid point (ticks of 1e-6); grids at construction and a real 1000-step run",
 "C20-F": "a save / load session: load, modify the loaded object, load again, overwrite under another spelling of the path (str / Path / relative), load again",
 "C21-E": "failures that need no injection: a static problem without equilibrium solved with the pseudo-inverse linear solvers; independent observers re-evaluate a helper's criterion at the returned point (site `unmet` in SolverRun.tla)",
 "C21-F": "a fast-spinning body with spherical inertia under DualStormerVerlet (only the kinematic loop is hard), watched by the same observers",
 "C22-E": "the momentum helper is also started far away from the fixed point (10^2 .. 10^5)",
 "C24-E": "system `shaken_support`: a link hinged to a frame with prescribed translation and rocking",
 "C24-F": "system `spinning_bar_coarse_output`: the joint turns by more than a quarter turn between two stored instants",
 "C25-F": "frames with time-dependent orientation as partners of the joint: rate of the tracked angle along a motion on the joint manifold against `l_dot`",
 "C27-F": "the prox parameter in other units (W * 2^k, m * 2^j: heavy bodies, tiny force directions), exact in binary floating point",
 "C28-F": "floating joints with a relative angular velocity (given in the joint frame; such cases have no displacement, where the readings of the linear part coincide)",
 "C05-E": "records at rational orientations that are not axis-aligned: joint bases from integer quaternions such as (2,1,0,0), rigid bodies at such orientations with integer inertial spin; positions, bases and every derivative direction carry a common denominator of their own and the kernel stays in integers",
 "C05-F": "the same generic records (off the joint manifold, relative orientation not a quarter turn)",
 "C06-E": "planes whose constant basis is a rational rotation that is not axis-aligned (`tilted`), the basis entering the kernel as F / s; bodies at rational non-octahedral orientations (`rigid*`)",
 "C06-C": "twin history: two identical contacts, `step_callback` on one of them between evaluations",
 "C07-D": "line load that varies along the rod (xi-dependent): quadrature rules no longer agree by accident",
 "C08-B": "every element object is evaluated at two or more states at the same `t` (quick tier: one object, two states, instead of two objects with one state each) and at the first state again (bitwise repeatability)",
 "C09-D": "history `late_add`: the law is added to a system that has already been assembled with a non-zero `angle0`",
 "C10-C": "history in the float supplements: after a rod has been evaluated it is given a second stress-free reference (`set_reference_strains`), which must be stress free as well",
 "C10-D": "the second material law (`Harsch2021`) on displacement-based rods of all three families, straight and curved references",
 "C11-A": "central-difference supplement for the SE(3) family's cross-section Jacobians (outside the rational core)",
 "C11-B": "inertia checks on rods with graded and curved references (three elements whose element matrices differ)",
 "C11-D": "mixed rods with internal constraints (the independent stress fields carry the remaining impressed components only) added to the weak-form records",
 "C12-D": "all law objects of a sweep created up front and alive together",
 "C14-C": "third phase: remove, add in another order, re-assemble, compare every assembled method",
 "C16-C": "scenes on accelerating planes and with time-dependent forces",
 "C16-D": "re-initialisation with an unchanged and with a changed state (tight and default options)",
 "C17-C": "`driven` systems whose prescribed motion starts late in the run",
 "C18-C": "scene with two contacts of different friction coefficients",
 "C18-D": "falling-bar tip scene (contact set unchanged while the normal directions turn); the earlier, accidental detection through a harness error was removed (Appendix F)",
 "C19-A": "there-and-back thresholds calibrated on the unchanged solver (it returns to within 4e-10; 'violated' from 5e-8 instead of 1e-5): a scheme that is reversible only to O(dt^3) misses by 1e-7 .. 1e-6",
 "C20-C": "large initial times (`BigT0`)",
 "C03-B": "`T_SO3_dot` is compared along every direction, among them the direction of the ray itself (rates parallel to psi)",
 "C23-A": "two dedicated problems placed at 170 degrees about the axis the rod is bent about (the scalar parts of the nodal quaternions change sign along the rod)",
 "C23-B": "a purely absolute Newton tolerance makes the arc-length steps independent of the placement; the points of the moved Riks run must then be the moved points",
 "C23-C": "(scenario added on reading the change, before the first run) hard runs that stop early: the rows they return are judged",
 "C23-D": "(scenario added on reading the change, before the first run) the arc-length solver on a span that does not start at zero",
 "C26-D": "second rigid-body pool whose quaternions are scaled by 2.0 (same orientation, different coordinates)",
 "C27-C": "NaN-safe comparisons (`not (err <= tol)`, `isfinite`)",
 "C28-D": "every third case imports a second time with the same dictionaries and compares",
 "C29-C": "contact sessions exporting the normal percussion as point data with a growing load",
 "C29-D": "sessions with two rods of different discretisation exported together",
}
rows = []
for d in sorted(os.listdir(root)):
    if not re.match(r'C\d\d-[A-H]$', d):
        continue
    notes = open(f'{root}/{d}/notes.md').read() if os.path.exists(f'{root}/{d}/notes.md') else ''
    title = ''
    for l in notes.splitlines():
        if l.startswith('#'):
            title = re.sub(r'^#+\s*', '', l)
            title = re.sub(r'^(Seed|Change)\s+[A-H]\s*(\(C\d\d\))?\s*[-–:]*\s*', '', title, flags=re.I)
            title = re.sub(r'^C\d\d\s*[/–-]?\s*(change|seed)?\s*[A-H]\s*[:–-]*\s*', '', title, flags=re.I)
            title = re.sub(r'^[—–-]\s*', '', title).strip(' "')
            title = re.sub(r'\s*\(cardillo/[^)]*\)', '', title)
            break
    if not title:
        for l in notes.splitlines():
            if l.strip():
                title = l.strip(' -*')[:140]; break
    patch = open(f'{root}/{d}/patch.diff').read()
    files = sorted(set(re.findall(r'^\+\+\+ b/(\S+)', patch, re.M)))
    meta = json.load(open(f'{root}/{d}/meta.json'))
    det = meta.get('detected_by', '')
    m = re.search(r'caught \((.*)\)$', det)
    keys = re.sub(r' \(x\d+\)', '', m.group(1) if m else det)
    k1 = keys.split('; ')[0][:100].replace('|', '/')
    rows.append((d, title[:140].replace('|', '/'), ', '.join(f.replace('cardillo/', '') for f in files), k1))
out = ["## Appendix E. Seeded changes and the checks that catch them\n",
"Two rounds of changes were written by fresh sub-agents that saw only the text of one property and a scratch worktree of",
"/repo (nothing from /verif). Each kept change was confirmed here: its demo passes on the unchanged tree and fails with the",
"patch, and the pinned suite (85 tests) still passes with the patch. They are stored under `seeded/<id>-<A..D>/` (`patch.diff`,",
"`demo.py`, `notes.md`, `meta.json`) and are never committed to /repo. `tools/run_seeds.py` applies each one in a scratch",
"worktree at /repo's HEAD, runs the property's **quick** check against that tree and writes `seeded/RESULTS.md`: at the last",
f"full run all {len(rows)} changes are reported (exit 1 with `VIOLATION` lines); the unchanged tree is quiet. Round 1 = A/B, round 2 = C/D",
"(written against the repaired tree, asked for changes that need something specific to manifest; C08 was claimed late, its four",
"changes are all of the round-2 kind).\n",
"| seed | change (file) | first reporting key of `./check <id>` |", "|---|---|---|"]
for d, t, f, k in rows:
    out.append(f"| {d} | {t} (`{f}`) | `{k}` |")
out.append("")
out.append("**Changes that the checks missed when they were first run, and what was strengthened** (each re-run individually afterwards,")
out.append("and the unchanged tree re-checked to stay quiet):\n")
for k, v in LATE.items():
    out.append(f"* {k}: {v}.")
out.append("")
out.append("The common pattern of the misses: the first versions of the checks evaluated *fresh* objects at *generic* states, one call at a")
out.append("time. Most round-2 changes are state that survives between calls (memos keyed too coarsely, class-level containers, in-place")
out.append("updates of arguments, short cuts decided in the first step). The strengthened checks therefore (i) derive call *histories* from")
out.append("the specifications (shared objects, repeated and bit-identical arguments, mutation in place, re-assembly, late changes of the")
out.append("active set or of prescribed motions) and (ii) put special values on the lattices (exact units, zeros, equal states on different")
out.append("objects, large offsets).")
txt = "\n".join(out) + "\n"
p = '/verif/DESIGN.md'
s = open(p).read()
i = s.index("## Appendix E. Seeded changes"); j = s.index("## Appendix F.")
s = s[:i] + txt + "\n" + s[j:]
open(p, 'w').write(s)
print(len(rows), "seeds")
