#!/bin/bash
# confirm_seed.sh <PID> <X>: confirm a seeded change delivered in /tmp/seed_<PID>/<X>/ in the scratch worktree
# /tmp/wt_<PID> (never in /repo): demo passes on the pinned tree, fails with the patch, the full pinned test
# suite passes with the patch.  On success the seed is copied to /verif/seeded/<PID>-<X>/ with a meta.json.
pid=$1; X=$2
src=/tmp/seed2_$pid/$X
wt=/tmp/wt2_$pid
out=/verif/seeded/$pid-$X
log=/tmp/seed2_$pid/$X/confirm.log
exec >"$log" 2>&1
set -x
cd "$wt" || exit 2
git checkout -- . || exit 2
[ -z "$(git status --porcelain)" ] || { echo "worktree not clean"; exit 2; }
PYTHONPATH=$wt timeout 900 /venv/bin/python "$src/demo.py"; base=$?
git apply "$src/patch.diff" || { echo "patch does not apply"; exit 2; }
PYTHONPATH=$wt timeout 900 /venv/bin/python "$src/demo.py"; mut=$?
PYTHONPATH=$wt timeout 3000 /venv/bin/python -m pytest -q -p no:cacheprovider --timeout=900 -n 8 2>&1 | tail -5 > "$src/suite_tail.txt"
suite=$(grep -Eo '[0-9]+ passed' "$src/suite_tail.txt" | head -1)
failed=$(grep -Eo '[0-9]+ (failed|error)' "$src/suite_tail.txt" | head -1)
git checkout -- .
set +x
echo "RESULT pid=$pid X=$X demo_base_exit=$base demo_mut_exit=$mut suite='$suite' failed='$failed'"
if [ "$base" = 0 ] && [ "$mut" != 0 ] && [ "$suite" = "85 passed" ] && [ -z "$failed" ]; then
  mkdir -p "$out"
  cp "$src/patch.diff" "$src/demo.py" "$out/"
  [ -f "$src/notes.md" ] && cp "$src/notes.md" "$out/"
  cat > "$out/meta.json" <<EOF
{
 "property": "$pid",
 "seed": "$pid-$X",
 "confirmed": {"demo_exit_on_pinned_tree": $base, "demo_exit_with_patch": $mut, "suite_with_patch": "$suite"},
 "what_i_ran": "tools/confirm_seed2.sh $pid $X (round 2, on the repaired tree) in scratch worktree $wt: demo.py on the pinned tree, demo.py with patch.diff applied, full pinned pytest suite (-n 8) with patch.diff applied",
 "needs_to_manifest": "see notes.md",
 "detected_by": "filled in by tools/run_seeds.py (see seeded/RESULTS.md)"
}
EOF
  echo CONFIRMED
else
  echo NOT-CONFIRMED
fi
