#!/bin/bash
# try_patch.sh <patch.diff> <ID> [tier]: apply a patch to /repo, run the check, revert.  Prints summary.
p=$1; id=$2; tier=${3:-quick}
cd /repo || exit 2
[ -z "$(git status --porcelain)" ] || { echo "/repo not clean"; exit 2; }
git apply "$p" 2>/dev/null || patch -p1 -F3 -s --no-backup-if-mismatch -r - < "$p" || { git checkout -- .; exit 2; }
(cd /verif && timeout 3000 ./check $id --tier $tier > /tmp/try_$id.log 2>&1; echo "exit=$?"; grep -c '^VIOLATION' /tmp/try_$id.log; grep -E "key=" /tmp/try_$id.log | sed 's/: .*//' | sort | uniq -c | sort -rn | head -5; grep -E "MACHINERY|Traceback" /tmp/try_$id.log | head -3)
git checkout -- .
