#!/bin/bash
# run every claimed check in parallel on the unchanged tree: tools/run_all_par.sh <tier> <jobs> [seed]
# evidence goes to out/runs/par_<tier>_<seed>/ (not to evidence/); one line per check on stdout
tier=${1:-thorough}; jobs=${2:-4}; seed=${3:-20260921}
cd /verif
ids=$(/venv/bin/python -c "import json; print(' '.join(c['property_id'] for c in json.load(open('MANIFEST.json'))['checks']))")
run_one() {
  id=$1; tier=$2; seed=$3
  s=$(date +%s); VERIF_SEED=$seed VERIF_RUN_TAG=par_${tier}_${seed}_$id ./check $id --tier $tier > /tmp/par_${tier}_${seed}_$id.log 2>&1; rc=$?; e=$(date +%s)
  echo "tier=$tier seed=$seed $id rc=$rc $((e-s))s $(grep -c '^VIOLATION' /tmp/par_${tier}_${seed}_$id.log) violations $(grep -c '^KNOWN-FINDING' /tmp/par_${tier}_${seed}_$id.log) known"
  rm -rf /verif/out/runs/par_${tier}_${seed}_$id
}
export -f run_one
echo $ids | tr ' ' '\n' | xargs -P $jobs -I{} bash -c "run_one {} $tier $seed"
